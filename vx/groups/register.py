"""C04 (c): which postings the register of an account lists."""
from ._amount_units import U, RET
F = "core/src/report/query.rs"

GROUP = {
    "name": "register",
    "uses": "use std::collections::HashSet;\nuse vstd::std_specs::hash::*;\n",
    "broadcast": ["key_axioms::axiom_account_key_model"],
    "parts": [
        ("text", "handles.rs"),
        ("text", "register_spec.rs"),
        U("AccountFilter(type)", F, [r"enum AccountFilter<'ctx>"]),
        U("AccountFilter::is_match", F, [r"impl<'ctx> AccountFilter<'ctx>", r"fn is_match\b"], fn="is_match", wrap=("impl AccountFilter {", "}"),
          rewrites=[RET()],
          contract="""
        ensures
            // C04: without an account argument every posting is listed; with one, exactly the postings of the selected accounts
            r == (match *self { AccountFilter::Any => true, AccountFilter::Set(targets) => targets@.contains(*account) }),   // @is_match.exactly_the_selected_accounts
"""),
        # which accounts are selected: the predicate handed to `.filter(..)` in AccountFilter::new
        U("callsite:AccountFilter::new.selected", F, [r"impl<'ctx> AccountFilter<'ctx>", r"fn new\b"], fn="account_selected", no_canary=True,
          slice=r"\.filter\(\|x\| ((?:[^()]|\([^()]*\))*)\)", slice_count=1,
          slice_template="""fn account_selected(x: &Account, filter: &str) -> (b: bool)
    ensures
        // C04: the register of an account lists that account only: the name must be EQUAL to the argument (not a prefix / substring)
        b == (x.name() == filter@),   // @AccountFilter.new.selects_the_account_of_exactly_that_name
{
    {EXPR}
}"""),
        # the register applies the filter to the posting's own account
        U("anchor:Ledger::postings filters on the posting's account", F, [r"impl<'ctx> Ledger<'ctx>", r"pub fn postings<'a>"], no_canary=True,
          slice=r"(\.flat_map\(\|txn\| &\*txn\.postings\)\s*\.filter\(\|x\| af\.is_match\(&x\.account\)\)\s*\.collect\(\))", slice_count=1,
          slice_template="/* anchor: {EXPR} */\n"),
        # ---- AccountFilter::new, whole function: the set of accounts a register argument selects
        ("raw", """
#[verifier::external_body]
pub struct ReportContext { _p: usize }
impl ReportContext {
    /// the accounts the context knows under their canonical names
    pub uninterp spec fn known_accounts(&self) -> Set<Account>;
}
/// ASSUMED (iterator over the intern store): `ctx.all_accounts_unsorted()` yields every known (canonical) account exactly once, in some order
#[verifier::external_body]
pub fn all_accounts_unsorted_listing(ctx: &ReportContext) -> (r: Vec<Account>)
    ensures r@.no_duplicates(), forall|a: Account| r@.contains(a) <==> ctx.known_accounts().contains(a),
{ unimplemented!() }
pub open spec fn by_name(ctx: &ReportContext, f: Seq<char>) -> spec_fn(Account) -> bool { |x: Account| ctx.known_accounts().contains(x) && x.name() == f }
"""),
        U("AccountFilter::new", F, [r"impl<'ctx> AccountFilter<'ctx>", r"fn new\b"], fn="new", wrap=("impl AccountFilter {", "}"),
          rewrites=[RET(),
                    ("R35b-filter-collect-set", "re:let targets: HashSet<_> = ctx\\s*\\.all_accounts_unsorted\\(\\)\\s*\\.filter\\(\\|x\\| ([^;]*?)\\)\\s*\\.collect\\(\\);",
                     "let all__ = all_accounts_unsorted_listing(ctx); let mut targets: HashSet<Account> = HashSet::new();\n        for i__ in 0..all__.len() { let x = &all__[i__]; if \\1 { targets.insert(*x); } }", 1),
                    ("R24-set-is-empty", "if targets.is_empty() {", "if targets.len() == 0 {", 1)],
          contract="""
        ensures
            // C04: no argument = every posting is listed
            filter is None ==> r == Some(AccountFilter::Any),   // @AccountFilter.new.no_argument_selects_everything
            // an argument selects exactly the known accounts whose name EQUALS it; none = nothing is listed
            filter matches Some(f) ==> (match r {
                Some(AccountFilter::Set(t)) => forall|x: Account| t@.contains(x) == #[trigger] by_name(ctx, f@)(x),
                Some(AccountFilter::Any) => false,
                None => forall|x: Account| !#[trigger] by_name(ctx, f@)(x) }),   // @AccountFilter.new.selects_the_known_accounts_of_exactly_that_name
""",
          loops={0: """
            invariant
                targets@.finite(),
                forall|x: Account| targets@.contains(x) == (exists|k: int| 0 <= k < i__ && all__@[k] == x && x.name() == filter@),
"""},
          after_loop={0: """        proof {
            assert forall|x: Account| targets@.contains(x) == #[trigger] by_name(ctx, filter@)(x) by {
                if by_name(ctx, filter@)(x) {
                    assert(all__@.contains(x));
                    let k = choose|k: int| 0 <= k < all__@.len() && all__@[k] == x;
                    assert(0 <= k < all__@.len() && all__@[k] == x && x.name() == filter@);
                }
                if targets@.contains(x) {
                    let k = choose|k: int| 0 <= k < all__@.len() && all__@[k] == x && x.name() == filter@;
                    assert(all__@.contains(all__@[k]));
                }
            }
            if targets@.len() == 0 {
                assert forall|x: Account| !#[trigger] by_name(ctx, filter@)(x) by {
                    if targets@.contains(x) { assert(targets@.len() > 0) by { broadcast use vstd::set_lib::group_set_lib_default; targets@.lemma_len0_is_empty(); } }
                }
            }
        }"""}),
    ],
}
