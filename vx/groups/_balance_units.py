"""Shared unit definitions: report/balance.rs"""
from ._amount_units import U, RET
BA = "core/src/report/balance.rs"
IMPL_BA = ("impl Balance {", "}")

BALANCE_TYPES = [
    U("BalanceError", BA, [r"pub enum BalanceError\b"]),
    U("Balance(type)", BA, [r"pub struct Balance<'ctx>"], pub_fields=True),
    ("text", "balance_spec.rs"),
]

BALANCE = [
    U("Balance::add_amount", BA, [r"impl<'ctx> Balance<'ctx>", r"pub fn add_amount\b"], fn="add_amount", wrap=IMPL_BA,
      rewrites=[RET()],
      contract="""
        ensures
            // C04: the stored balance is the running sum and never keeps a zero-valued commodity
            final(self)@ == old(self)@.insert(account, nz(madd(bget(old(self)@, account), amount@))),   // @Balance.add_amount.adds_to_that_account_only
            r@ == final(self)@[account],
"""),
    U("Balance::add_posting_amount", BA, [r"impl<'ctx> Balance<'ctx>", r"pub\(super\) fn add_posting_amount\b"], fn="add_posting_amount", wrap=IMPL_BA,
      rewrites=[RET()],
      contract="""
        ensures
            final(self)@ == old(self)@.insert(account, nz(add_pa(bget(old(self)@, account), amount))),   // @Balance.add_posting_amount.adds_to_that_account_only
            r@ == final(self)@[account],                                                                  // @Balance.add_posting_amount.returns_updated
"""),
    U("Balance::set_partial", BA, [r"impl<'ctx> Balance<'ctx>", r"pub\(super\) fn set_partial\b"], fn="set_partial", wrap=IMPL_BA,
      rewrites=[RET(), ("R20-into-to-from", "(&prev)\n                    .try_into()", "PostingAmount::try_from(&prev)", 1),
                ("R11-ctor-as-fn", ".map_err(BalanceError::MultiCommodityWithPartialSet)",
                 ".map_err(|e: EvalError| -> (b: BalanceError) ensures b == BalanceError::MultiCommodityWithPartialSet(e) { BalanceError::MultiCommodityWithPartialSet(e) })", 1)],
      contract="""
        ensures
            // C03: `= X c` replaces that commodity only and reports what was there; bare `= 0` resets a
            // single-commodity account and reports its holding; several commodities are rejected
            amount matches PostingAmount::Single(s) ==> (r matches Ok(PostingAmount::Single(p)) && p.commodity == s.commodity
                && p.v() == mget(bget(old(self)@, account), s.commodity)
                && final(self)@ == old(self)@.insert(account,
                    if s.v() == 0real { bget(old(self)@, account).remove(s.commodity) } else { bget(old(self)@, account).insert(s.commodity, s.v()) })),   // @Balance.set_partial.replaces_one_commodity
            (amount is Zero && bget(old(self)@, account).dom().len() > 1) ==> r matches Err(BalanceError::MultiCommodityWithPartialSet(_)),   // @Balance.set_partial.zero_on_multi_commodity_rejected
            (amount is Zero && bget(old(self)@, account).dom().len() == 0) ==> r == Ok::<PostingAmount, BalanceError>(PostingAmount::Zero),
            (amount is Zero && bget(old(self)@, account).dom().len() == 1) ==> (r matches Ok(PostingAmount::Single(p))
                && bget(old(self)@, account) == Map::<Commodity, real>::empty().insert(p.commodity, p.v())),   // @Balance.set_partial.zero_returns_whole_holding
            (amount is Zero && r is Ok) ==> final(self)@ == old(self)@.insert(account, Map::<Commodity, real>::empty()),   // @Balance.set_partial.zero_resets_account
"""),
]
