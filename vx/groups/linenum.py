"""C14: compute_line_number for texts of every length (the Kani harnesses bound the text to 4 characters)."""
from ._amount_units import U, RET
PE = "core/src/parse/error.rs"
GROUP = {
    "name": "linenum",
    "uses": "use vstd::string::StringSliceAdditionalSpecFns;\n",
    "parts": [
        ("raw", """
/// number of LF bytes among the first n bytes
pub open spec fn lf_count(b: Seq<u8>, n: int) -> int
    decreases n
{
    if n <= 0 { 0 } else { lf_count(b, n - 1) + (if b[n - 1] == 10u8 { 1int } else { 0int }) }
}
pub proof fn lemma_lf_count_bound(b: Seq<u8>, n: int)
    requires 0 <= n <= b.len(),
    ensures 0 <= lf_count(b, n) <= n,
    decreases n
{
    if n > 0 { lemma_lf_count_bound(b, n - 1); }
}
/// ASSUMED std: `slice.split_at(mid).0` is the first `mid` elements (panics when mid > len: the caller's assert! rules that out)
#[verifier::external_body]
pub fn bytes_prefix<'a>(b: &'a [u8], mid: usize) -> (r: &'a [u8])
    requires mid <= b@.len(),
    ensures r@ == b@.take(mid as int),
{ unimplemented!() }
"""),
        U("compute_line_number", PE, [r"pub\(super\) fn compute_line_number\b"], fn="compute_line_number",
          rewrites=[RET(),
                    ("R12-assert", "re:assert!\\(\\s*pos <= s\\.len\\(\\),[^;]*\\);", "assert(pos <= s.spec_bytes().len());   // assert!(pos <= s.len(), ..): str::len is the byte length; discharged from the precondition", 1),
                    ("R24-std-model", "let (s, _) = s.as_bytes().split_at(pos);", "let s = bytes_prefix(s.as_bytes(), pos);", 1),
                    ("R42-filter-count", "re:1 \\+ s\\.iter\\(\\)\\.filter\\(\\|x\\| ([^)]*)\\)\\.count\\(\\)",
                     "{ let mut n__: usize = 0; let mut i__: usize = 0;\n    while i__ < s.len() { let x = &&s[i__]; if \\1 { n__ += 1; } i__ += 1; }\n    1 + n__ }", 1)],
          contract="""
    requires pos <= s.spec_bytes().len(), s.spec_bytes().len() < usize::MAX,   // the caller's side of the assert!; every str is shorter than usize::MAX bytes
    ensures
        // C14: the line number of byte offset `pos` is one plus the number of line feeds BEFORE it, counted in bytes (CR, multi-byte text and
        //      whatever else precedes it do not matter) - for texts of every length
        r == 1 + lf_count(s.spec_bytes(), pos as int),   // @compute_line_number.one_plus_line_feeds_before_the_offset
""",
          loops={0: """
        invariant
            i__ <= s@.len(), s@ == old_s_bytes.take(pos as int), n__ == lf_count(s@, i__ as int), n__ <= i__,
        decreases s@.len() - i__,
"""},
          body_start="    let ghost old_s_bytes = s.spec_bytes();",
          after_loop={0: """    proof {
        assert forall|k: int| 0 <= k <= pos implies lf_count(old_s_bytes.take(pos as int), k) == lf_count(old_s_bytes, k) by { lemma_take(old_s_bytes, pos as int, k); }
    }"""}),
        ("raw", """
pub proof fn lemma_take(b: Seq<u8>, p: int, k: int)
    requires 0 <= k <= p <= b.len(),
    ensures lf_count(b.take(p), k) == lf_count(b, k),
    decreases k
{
    if k > 0 { lemma_take(b, p, k - 1); }
}
"""),
    ],
}
