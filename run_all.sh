#!/bin/bash
# runs every claimed property's check (tier $1, default quick) on /repo's current tree; prints a summary
tier=${1:-quick}
cd "$(dirname "$(readlink -f "$0")")"
for p in $(python3 -c "import props; print(' '.join(sorted(props.PROPS)))"); do
  out=$(./check $p --tier $tier 2>&1); rc=$?; echo "$p rc=$rc $(echo "$out" | tail -2 | tr "\n" " " | cut -c1-200)"
done
python3-vt - <<'PY'
import json, jsonschema, glob
sch=json.load(open('/root/.vp/EVIDENCE.schema.json'))
for f in sorted(glob.glob('evidence/*.json')):
    e=json.load(open(f)); jsonschema.validate(e, sch)
    c=e['coverage']; print('evidence', e['property_id'], e['level'], c.get('obligations'), c.get('discharged'), c.get('status'))
PY
