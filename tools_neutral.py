#!/usr/bin/env python3
"""tools_neutral.py <diff> <prop>...  — applies a behaviour-preserving diff to /repo, runs the given checks (quick), reverts.
A VIOLATION (exit 1) on such a diff is a false alarm; exit 2 (inconclusive) is tolerated."""
import subprocess, sys
diff, props = sys.argv[1], sys.argv[2:]
assert subprocess.run(["git", "-C", "/repo", "status", "--porcelain"], capture_output=True, text=True).stdout.strip() == "", "/repo not clean"
r = subprocess.run(["git", "-C", "/repo", "apply", diff], capture_output=True, text=True)
if r.returncode != 0:
    print("PATCH DID NOT APPLY", r.stderr); sys.exit(3)
import shutil, tempfile
EVID_BACKUP = tempfile.mkdtemp(prefix='evid-', dir='/var/tmp')
shutil.copytree('/verif/evidence', EVID_BACKUP + '/evidence')   # the committed evidence must describe the UNCHANGED tree: put it back afterwards
try:
    for p in props:
        c = subprocess.run(["./check", p, "--tier", "quick"], cwd="/verif", capture_output=True, text=True)
        tag = {0: "ok", 1: "FALSE ALARM", 2: "inconclusive"}.get(c.returncode, str(c.returncode))
        print(f"{diff.split('/')[-1]} vs {p}: rc={c.returncode} {tag}")
        if c.returncode != 0:
            for l in c.stdout.splitlines()[-4:]:
                print("    ", l[:300])
finally:
    subprocess.run(["git", "-C", "/repo", "checkout", "--", "."], check=True)
    shutil.rmtree('/verif/evidence'); shutil.copytree(EVID_BACKUP + '/evidence', '/verif/evidence'); shutil.rmtree(EVID_BACKUP)
